// C16: ConcurrentExecutionQueue under the schedule fuzzer with launch-fault injection.
//   every item handed to execute() reaches the consume function exactly once, per producer in
//   submission order, the consume function never runs in two places at once, execute()/
//   signal_push_event() return non-zero exactly when the launch they needed was refused, and
//   once a launch was accepted after the last push join() returns with everything consumed.
#include "known.h"
#include <babylon/concurrent/execution_queue.h>

#include <stdarg.h>
#include <stdio.h>
#include <string.h>

#include <memory>
#include <string>
#include <thread>
#include <vector>

#include "../engine/common/driver.h"

using dsched::Tracked;
using vf::Chooser;

namespace {

// KNOWN FINDING (clean tree, see the report / known_findings): join() only watches the event counter, and the
// consumer's "empty" poll stops at the first unpublished ticket of the FIFO. An item whose execute() has already
// returned 0 can therefore sit behind another producer's still unfinished push with the counter at 0 and no
// consumer running; a join() called in that window returns although that item was not consumed yet (it is
// consumed as soon as the slower producer finishes its own execute()). While this flag is true the strict
// "consumed when a concurrent join() returns" check skips exactly the items whose execute() overlapped another
// thread's execute(); run with VF_ALLOW_KNOWN=c16join to check strictly and reproduce the finding
// (witness: corpus/c16_execq/known_join_behind_inflight_push.replay.json).
// The guard is lifted (strict check) when VF_ALLOW_KNOWN names the token "c16join" (see known.h).
// (evaluated at use: a replay file sets the variable after static initialisation)
bool known_join_misses_item_behind_inflight_push() { return !vf_allow_known("c16join"); }

struct PerThread {
  bool pushing = false;     // inside execute() (a push may be in flight)
  bool overlapped = false;  // ... and another thread's execute() overlapped it
  int attempts_in_call = 0;   // invoke() attempts made by this thread inside its current execute()/signal call
  bool last_refused = false;  // outcome of the latest of them
  int sleeps_in_call = 0;     // usleep(1000) polls inside the current execute()/join() call
  const char* in_call = nullptr;
};

struct Done {
  uint64_t id;
  dsched::Stamp stamp;
  bool overlapped;  // another thread's execute() was in flight at some point during this one
};

struct World {
  // fault plan
  uint32_t refuse_mask = 0;
  // executor bookkeeping
  int attempts = 0, refusals = 0, accepted = 0;
  int launch_active = 0;  // accepted consumer launches currently running (wrapper-visible executors only)
  PerThread thr[dsched::MAXT];
  // consume side
  int in_consume = 0;
  std::vector<uint64_t> consumed;
  std::vector<int> consumed_by;  // scheduled thread that ran the callback
  // producer side
  int in_execute = 0;
  std::vector<Done> completed;  // execute() calls that returned
  bool need_signal = false;     // a refused launch was left for the end
  bool overlap = false;
  bool handoff = false;
  size_t total = 0;
  std::string trace;  // compact event log for failure messages
};
World* W;

void tr(const char* fmt, ...) __attribute__((format(printf, 1, 2)));
void tr(const char* fmt, ...) {
  char buf[96];
  va_list ap;
  va_start(ap, fmt);
  vsnprintf(buf, sizeof buf, fmt, ap);
  va_end(ap);
  if (W->trace.size() < 1500) W->trace += buf;
}

// The queue's join() and the bounded queue's full-queue wait poll with S::usleep(1000). Virtual time only
// advances 100 ns per step of a running thread, so dozens of polls inside one call mean every other thread
// is idle: the call waits for a consumer that does not exist.
struct HookedSched : public babylon::SchedInterface {
  inline static void usleep(useconds_t us) noexcept {
    int me = dsched::tid();
    if (W != nullptr && me >= 0) {
      PerThread& t = W->thr[me];
      if (t.in_call != nullptr && ++t.sleeps_in_call > 60)
        dsched::fail("no-consumer", "%s still waiting after %d polls of 1 ms while nothing else runs: consumed %zu of %zu, launches accepted %d refused %d",
                     t.in_call, t.sleeps_in_call, W->consumed.size(), W->total, W->accepted, W->refusals);
    }
    babylon::SchedInterface::usleep(us);
  }
};

struct Elem {
  Tracked<uint64_t> id;
  Tracked<uint64_t> chk;
  Elem() = default;
  explicit Elem(uint64_t i) {
    id.v = i;
    chk.v = ~i;
  }
  Elem(Elem&&) = default;
  Elem(const Elem&) = default;
  // execute() moves / copies the value into the queue slot by assignment: the producer's write
  Elem& operator=(Elem&& o) noexcept { return assign(o); }
  Elem& operator=(const Elem& o) noexcept { return assign(o); }
  Elem& assign(const Elem& o) {
    id.set(o.id.v, "elem.id");
    dsched::point();
    chk.set(o.chk.v, "elem.chk");
    return *this;
  }
};

using Queue = babylon::ConcurrentExecutionQueue<Elem, HookedSched>;
using Iter = Queue::Iterator;

// Harness executor: runs the task inline or hands it to `inner`, refusing the attempts in the fault plan.
struct FlakyExecutor : public babylon::Executor {
  babylon::Executor* inner = nullptr;
  int invoke(babylon::MoveOnlyFunction<void(void)>&& function) noexcept override {
    int attempt = W->attempts++;
    int me = dsched::tid();
    tr("T%d:launch#%d%s ", me, attempt, (attempt < 32 && ((W->refuse_mask >> attempt) & 1u)) ? "=refused" : "");
    PerThread& t = W->thr[me];
    t.attempts_in_call++;
    dsched::point();
    if (attempt < 32 && ((W->refuse_mask >> attempt) & 1u)) {
      // contract of BasicExecutor::invoke: != 0 => the function was neither moved away nor called
      W->refusals++;
      t.last_refused = true;
      // any non-zero code is a refusal (negative or errno-style positive); derived from the attempt number
      static const int codes[] = {-1, 1, 11 /*EAGAIN*/, -22, INT32_MAX, INT32_MIN, 12 /*ENOMEM*/};
      return codes[(size_t)attempt % (sizeof(codes) / sizeof(codes[0]))];
    }
    t.last_refused = false;
    W->accepted++;
    if (inner == nullptr) {
      W->launch_active++;
      function();
      W->launch_active--;
      return 0;
    }
    World* w = W;
    int r = inner->submit([w, f = std::move(function)]() mutable {
      w->launch_active++;
      f();
      w->launch_active--;
    });
    if (r != 0) dsched::fail("harness", "the thread pool refused a task");
    return 0;
  }
};

enum OpKind { O_MOVE = 0, O_COPY = 1, O_SIGNAL = 2 };
struct Op {
  OpKind kind;
  uint64_t id;
};
struct Plan {
  std::vector<Op> ops;
  bool defer;  // leave a refused launch to the final signal instead of retrying at once
};

uint64_t make_id(int producer, int seq) { return ((uint64_t)(producer + 1) << 16) | (uint64_t)(seq + 1); }

void check_ret(const char* what, int ret, bool hooked, const PerThread& t) {
  if (!hooked) {
    if (ret != 0) dsched::fail("return-value", "%s returned %d with an executor that never refuses", what, ret);
    return;
  }
  bool refused = t.attempts_in_call > 0 && t.last_refused;
  if (ret != 0 && !refused)
    dsched::fail("return-value", "%s returned %d but no launch of this call was refused (%d attempts)", what, ret, t.attempts_in_call);
  if (ret == 0 && refused)
    dsched::fail("return-value", "%s returned 0 although the launch it needed was refused (%d attempts)", what, t.attempts_in_call);
}

void run_producer(Queue& q, const Plan& plan, bool hooked) {
  int me = dsched::tid();
  PerThread& t = W->thr[me];
  for (const Op& op : plan.ops) {
    t.attempts_in_call = 0;
    t.last_refused = false;
    t.sleeps_in_call = 0;
    t.in_call = op.kind == O_SIGNAL ? "signal_push_event()" : "execute()";
    if (W->in_consume > 0 || W->launch_active > 0) W->overlap = true;
    if (op.kind != O_SIGNAL) {
      t.pushing = true;
      t.overlapped = false;
      for (int u = 0; u < dsched::MAXT; u++)
        if (u != me && W->thr[u].pushing) W->thr[u].overlapped = t.overlapped = true;
    }
    W->in_execute++;
    tr("T%d:%s(%lx)> ", me, op.kind == O_SIGNAL ? "signal" : "execute", (unsigned long)op.id);
    int ret;
    if (op.kind == O_MOVE) {
      Elem e(op.id);
      ret = q.execute(std::move(e));
    } else if (op.kind == O_COPY) {
      const Elem e(op.id);
      ret = q.execute(e);
    } else {
      ret = q.signal_push_event();
    }
    W->in_execute--;
    t.in_call = nullptr;
    t.pushing = false;
    tr("T%d:<%d ", me, ret);
    check_ret(op.kind == O_SIGNAL ? "signal_push_event()" : "execute()", ret, hooked, t);
    if (ret == 0 && t.attempts_in_call == 0 && op.kind != O_SIGNAL) W->handoff = true;
    if (op.kind != O_SIGNAL) W->completed.push_back(Done{op.id, dsched::stamp(), t.overlapped});
    if (ret != 0) {
      if (plan.defer) {
        W->need_signal = true;
        dsched::label("refusal_deferred");
      } else {
        // recover at once: the fault plan is finite, so this terminates
        dsched::label("refusal_retried");
        for (;;) {
          t.attempts_in_call = 0;
          t.last_refused = false;
          int r = q.signal_push_event();
          check_ret("signal_push_event()", r, hooked, t);
          if (r == 0) break;
        }
      }
    }
  }
}

void checked_join(Queue& q, bool faultless, bool final_join) {
  const char* who = final_join ? "final" : "concurrent";
  int me = dsched::tid();
  PerThread& t = W->thr[me];
  // everything whose execute() returned before this join() started (happens-before in weak mode)
  std::vector<uint64_t> before;
  for (const Done& d : W->completed) {
    if (!dsched::ordered_after(d.stamp)) continue;
    if (known_join_misses_item_behind_inflight_push() && d.overlapped && !final_join) continue;
    before.push_back(d.id);
  }
  t.sleeps_in_call = 0;
  t.in_call = "join()";
  tr("T%d:join> ", me);
  q.join();
  tr("T%d:<join ", me);
  t.in_call = nullptr;
  if (!faultless) return;
  for (uint64_t id : before) {
    bool found = false;
    for (uint64_t c : W->consumed) found = found || c == id;
    if (!found)
      dsched::fail("join", "%s join() returned but id %lx, whose execute() had returned before the join started, was not consumed; trace: %s",
                   who, (unsigned long)id, W->trace.c_str());
  }
}

void run_case(Chooser& c) {
  World world;
  W = &world;

  int cap_hint = c.range(1, 4);
  int exec_kind = (int)c.below(4);  // 0 Inplace, 1 Flaky(inline), 2 pool, 3 Flaky(pool)
  bool hooked = exec_kind == 1 || exec_kind == 3;
  bool pooled = exec_kind >= 2;
  int workers = pooled ? c.range(1, 2) : 0;
  if (hooked) {
    int k = c.range(0, 4);
    for (int i = 0; i < k; i++) world.refuse_mask |= 1u << c.below(8);
  }
  bool faultless = world.refuse_mask == 0;
  int nprod = c.range(1, 3);
  static const char* exec_name[] = {"Inplace", "Flaky(inline)", "Pool", "Flaky(pool)"};
  dsched::describe("cap=%d exec=%s workers=%d refuse=0x%x;", cap_hint, exec_name[exec_kind], workers, world.refuse_mask);
  dsched::label(exec_name[exec_kind]);

  std::vector<Plan> plans((size_t)nprod);
  size_t cap_real = 1;
  while (cap_real < (size_t)cap_hint) cap_real <<= 1;
  for (int p = 0; p < nprod; p++) {
    int nops = c.range(1, 4);
    int seq = 0;
    for (int k = 0; k < nops; k++) {
      Op op{};
      uint32_t r = c.below(8);
      op.kind = r == 7 ? O_SIGNAL : (r % 2 ? O_COPY : O_MOVE);
      if (op.kind != O_SIGNAL) {
        op.id = make_id(p, seq++);
        world.total++;
      }
      plans[(size_t)p].ops.push_back(op);
    }
    plans[(size_t)p].defer = c.chance(1, 2);
  }
  // a refused launch may only be left pending when no producer can block on a full queue meanwhile
  for (int p = 0; p < nprod; p++) {
    if (world.total > cap_real) plans[(size_t)p].defer = false;
    dsched::describe(" P%d%s[", p + 1, plans[(size_t)p].defer ? "(defer)" : "");
    for (auto& op : plans[(size_t)p].ops) dsched::describe("%c", op.kind == O_MOVE ? 'm' : op.kind == O_COPY ? 'c' : 's');
    dsched::describe("]");
  }
  int joiner = c.chance(1, 3) ? c.range(1, 2) : 0;  // a thread calling join() this many times while producers run
  int joiner_delay = joiner ? c.range(0, 6) : 0;
  if (joiner) dsched::describe(" joiner=%dx+%d", joiner, joiner_delay);

  {
    std::unique_ptr<babylon::ThreadPoolExecutor> pool_holder;
    if (pooled) pool_holder.reset(new babylon::ThreadPoolExecutor);
    FlakyExecutor flaky;
    babylon::Executor* ex = &babylon::InplaceExecutor::instance();
    if (pooled) {
      pool_holder->set_worker_number((size_t)workers);
      pool_holder->set_global_capacity(8);
      if (pool_holder->start() != 0) dsched::fail("harness", "thread pool did not start");
      ex = pool_holder.get();
    }
    if (hooked) {
      flaky.inner = pooled ? pool_holder.get() : nullptr;
      ex = &flaky;
    }
    Queue q;
    auto consume = [&](Iter b, Iter e) {
      if (world.in_consume++ > 0)
        dsched::fail("single-consumer", "the consume function was entered while another invocation of it is still running");
      if (world.in_execute > (world.thr[dsched::tid()].in_call != nullptr ? 1 : 0)) world.overlap = true;
      if (b == e) dsched::fail("consume-range", "the consume function was called with an empty range");
      for (; b != e; ++b) {
        uint64_t id = b->id.get("elem.id");
        dsched::point();
        uint64_t chk = b->chk.get("elem.chk");
        if (chk != ~id) dsched::fail("payload", "id %lx consumed with torn payload %lx", (unsigned long)id, (unsigned long)chk);
        world.consumed.push_back(id);
        world.consumed_by.push_back(dsched::tid());
        tr("T%d:consume(%lx) ", dsched::tid(), (unsigned long)id);
      }
      dsched::point();
      world.in_consume--;
    };
    if (q.initialize((size_t)cap_hint, *ex, std::move(consume)) != 0) dsched::fail("harness", "initialize failed");
    if (q.capacity() != cap_real) dsched::fail("harness", "capacity %zu, expected %zu", q.capacity(), cap_real);

    std::vector<std::thread> threads;
    for (int p = 0; p < nprod; p++) threads.emplace_back([&, p] { run_producer(q, plans[(size_t)p], hooked); });
    if (joiner) {
      threads.emplace_back([&] {
        for (int i = 0; i < joiner_delay; i++) dsched::yield_point();
        for (int i = 0; i < joiner; i++) {
          checked_join(q, faultless, false);
          dsched::yield_point();
        }
      });
      dsched::label("concurrent_join");
    }
    for (auto& t : threads) t.join();

    if (world.need_signal) {
      // "after recovery signal_push_event() can be called to resume consumption"
      PerThread& t = world.thr[0];
      for (;;) {
        t.attempts_in_call = 0;
        t.last_refused = false;
        int r = q.signal_push_event();
        check_ret("signal_push_event()", r, hooked, t);
        if (r == 0) break;
      }
    }
    // every launch needed after the last push has been accepted by now
    checked_join(q, true, true);
    if (world.in_consume != 0) dsched::fail("join", "join() returned while the consume function is still running");
    if (world.consumed.size() < world.total)
      dsched::fail("join", "join() returned with %zu of %zu items consumed (accepted launches %d, refused %d)", world.consumed.size(),
                   world.total, world.accepted, world.refusals);
    if (q.size() != 0) dsched::fail("join", "size() == %zu after the final join()", q.size());
    if (pooled) pool_holder->stop();
  }

  // exactly once + per-producer order
  {
    std::vector<std::vector<int>> seen((size_t)nprod);
    std::vector<int> next((size_t)nprod, 1);
    for (uint64_t id : world.consumed) {
      int p = (int)(id >> 16) - 1, s = (int)(id & 0xffff);
      if (p < 0 || p >= nprod || s < 1) dsched::fail("exactly-once", "consumed id %lx that was never submitted", (unsigned long)id);
      if (s < next[(size_t)p]) dsched::fail("exactly-once", "id %lx consumed twice or after a later item of its producer", (unsigned long)id);
      if (s > next[(size_t)p])
        dsched::fail("producer-order", "producer %d: item %d consumed before item %d", p + 1, s, next[(size_t)p]);
      next[(size_t)p] = s + 1;
    }
    if (world.consumed.size() != world.total)
      dsched::fail("exactly-once", "%zu items consumed, %zu submitted", world.consumed.size(), world.total);
  }

  for (size_t i = 0; i < world.consumed.size(); i++) dsched::mix_hash(world.consumed[i] * 31 + (uint64_t)world.consumed_by[i]);
  dsched::mix_hash((uint64_t)world.refusals * 7 + (uint64_t)world.accepted);
  if (world.refusals > 0) dsched::label("launch_refused");
  if (world.refusals > 1) dsched::label("launch_refused_repeatedly");
  if (world.accepted > 1) dsched::label("consumer_relaunched");
  if (world.overlap) dsched::label("push_overlapped_consumer");
  if (world.handoff) dsched::label("push_left_to_running_consumer");
  if (world.need_signal) dsched::label("final_signal_recovery");
  if (world.overlap || world.refusals > 0) dsched::nontrivial();
  W = nullptr;
}

void tune(dsched::Params& p, Chooser&) { p.max_steps = 200000; }

}  // namespace

int main(int argc, char** argv) {
  vf::Target t;
  t.name = "c16_execq";
  t.property_id = "C16";
  t.nontrivial_rule = "an execute()/signal overlapped a running consumer launch or consume callback of another call, or a launch was refused";
  t.run_case = run_case;
  t.tune = tune;
  return vf::main_driver(argc, argv, t);
}
