"""Runner for the libFuzzer (E2) targets: sharded campaigns with fresh working corpora
plus the committed seed corpus and regression inputs; only crash-* artifacts count."""
import glob, hashlib, json, os, shutil, subprocess, time


def _run_once(exe, path, stats=None):
    env = dict(os.environ)
    env["ASAN_OPTIONS"] = "detect_leaks=0:abort_on_error=0:symbolize=1:allocator_may_return_null=1"
    if stats:
        env["VF_STATS_FILE"] = stats
    else:
        env.pop("VF_STATS_FILE", None)
    r = subprocess.run([exe, path], stdout=subprocess.PIPE, stderr=subprocess.STDOUT, env=env, timeout=120)
    return r.returncode, r.stdout.decode(errors="replace")


def run_fuzz_target(t, exe, tier, seed, workdir, root, out, ncpu):
    corpus_dir = os.path.join(root, "corpus", t["name"])
    os.makedirs(corpus_dir, exist_ok=True)
    shards = ncpu
    procs = []
    t0 = time.time()
    for k in range(shards):
        d = os.path.join(workdir, "%s.%d" % (t["name"], k))
        shutil.rmtree(d, ignore_errors=True)
        os.makedirs(os.path.join(d, "corpus"))
        os.makedirs(os.path.join(d, "art"))
        stats = os.path.join(d, "stats.json")
        env = dict(os.environ)
        env["VF_STATS_FILE"] = stats
        env["VERIF_TIER"] = tier
        env["ASAN_OPTIONS"] = "detect_leaks=0:abort_on_error=0:symbolize=1:allocator_may_return_null=1:malloc_context_size=10"
        argv = [exe, "-seed=%d" % (seed * 1000 + k + 1), "-max_len=%d" % t.get("max_len", 512),
                "-artifact_prefix=" + os.path.join(d, "art") + "/", "-print_final_stats=1", "-rss_limit_mb=3000",
                "-timeout=25", "-use_value_profile=1", "-reduce_inputs=1"]
        if t.get("dict"):
            argv.append("-dict=" + os.path.join(root, t["dict"]))
        if tier == "quick":
            argv.append("-runs=%d" % t["quick_cases"])
        else:
            argv += ["-runs=-1", "-max_total_time=%d" % t["thorough_s"]]
        argv += [os.path.join(d, "corpus"), corpus_dir]
        cpu = (k + (os.getpid() * 7 if ncpu < (os.cpu_count() or 1) else 0)) % (os.cpu_count() or 1)
        log = open(os.path.join(d, "log.txt"), "wb")
        p = subprocess.Popen(argv, stdout=log, stderr=subprocess.STDOUT, env=env,
                             preexec_fn=(lambda c=cpu: os.sched_setaffinity(0, {c})))
        procs.append((k, d, stats, p, log))
    ev = dict(target=t["name"], engine="libFuzzer+ASan+UBSan-subset", cases=0, nontrivial_cases=0, distinct=set(), samples=[],
              labels={}, rule="", verdicts={}, load_noise=0, crashes=0)
    lines = []
    crash_files = []
    for k, d, stats, p, log in procs:
        p.wait()
        log.close()
        if os.path.exists(stats):
            try:
                s = json.load(open(stats))
                ev["cases"] += s["cases"]
                ev["nontrivial_cases"] += s["nontrivial_cases"]
                ev["distinct"].update(s["distinct_nontrivial_hashes"])
                ev["rule"] = s["rule"]
                for kk, v in s["labels"].items():
                    ev["labels"][kk] = ev["labels"].get(kk, 0) + v
                for smp in s["samples"]:
                    if len(ev["samples"]) < 5:
                        ev["samples"].append(smp)
            except Exception as e:
                lines.append("STATS-ERROR %s %s" % (stats, e))
        arts = glob.glob(os.path.join(d, "art", "*"))
        for a in arts:
            base = os.path.basename(a)
            if base.startswith(("crash-", "leak-")):
                crash_files.append((a, os.path.join(d, "log.txt")))
            else:
                ev["load_noise"] += 1  # oom- / timeout- / slow-unit-: inconclusive, never a verdict
        if p.returncode not in (0, 1, 77) and not arts:
            tail = open(os.path.join(d, "log.txt"), "rb").read()[-600:].decode(errors="replace")
            lines.append("SHARD-ERROR %s shard %d rc=%s: %s" % (t["name"], k, p.returncode, tail))
    # regression inputs: every file under corpus/<target>/regress must pass
    for reg in sorted(glob.glob(os.path.join(corpus_dir, "regress", "*"))):
        rc, outp = _run_once(exe, reg)
        if rc != 0:
            crash_files.append((reg, None))
    seen_sigs = set()
    os.makedirs(os.path.join(out, "replays"), exist_ok=True)
    for a, logp in crash_files:
        # confirm 3/3 before reporting
        fails, last = 0, ""
        for _ in range(3):
            rc, outp = _run_once(exe, a)
            if rc != 0:
                fails += 1
                last = outp
        if fails < 3:
            lines.append("UNREPRODUCIBLE %s fails=%d/3" % (a, fails))
            continue
        sig = ""
        for ln in last.splitlines():
            if ln.startswith("ORACLE-FAIL:") or "ERROR: AddressSanitizer" in ln or "runtime error:" in ln or "ERROR: libFuzzer" in ln:
                sig = ln.strip()[:300]
                break
        # one report per distinct message shape (first 60 chars), to keep the output readable
        key = sig[:60]
        if key in seen_sigs:
            continue
        seen_sigs.add(key)
        # try to minimise (bounded), keep the original if that fails
        mini = a + ".min"
        try:
            env = dict(os.environ)
            env["ASAN_OPTIONS"] = "detect_leaks=0:abort_on_error=0"
            env.pop("VF_STATS_FILE", None)
            subprocess.run([exe, "-minimize_crash=1", "-runs=3000", "-max_total_time=20", "-exact_artifact_path=" + mini, a],
                           stdout=subprocess.DEVNULL, stderr=subprocess.DEVNULL, env=env, timeout=60)
            if os.path.exists(mini) and _run_once(exe, mini)[0] != 0:
                a = mini
        except Exception:
            pass
        data = open(a, "rb").read()
        name = "%s-%s-%s.bin" % (t["property"], t["name"], hashlib.sha1(data).hexdigest()[:12])
        dst = os.path.join(out, "replays", name)
        shutil.copyfile(a, dst)
        ev["crashes"] += 1
        case_line = ""
        for ln in last.splitlines():
            if ln.startswith("CASE:"):
                case_line = ln[:1500]
        lines.append("VIOLATION property=%s replay=%s" % (t["property"], dst))
        lines.append("  target=%s %s" % (t["name"], sig))
        if case_line:
            lines.append("  " + case_line)
    ev["verdicts"] = {"PASS": ev["cases"] - ev["crashes"], "VIOLATION": ev["crashes"], "INCONCLUSIVE": ev["load_noise"]}
    ev["wall_s"] = round(time.time() - t0, 2)
    return ev, lines
